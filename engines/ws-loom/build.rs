//! Kernel instrumenter of E3 `kernmc` (DESIGN.md §2.3).
//!
//! Reads the real source text of the lock-free kernels from the assets_manager checkout named by
//! the `assets_manager = { path = ".." }` dependency of this crate's Cargo.toml (normally /repo;
//! `KERNMC_REPO` overrides it), rewrites it with `syn`, and writes the result to `OUT_DIR`, where
//! `src/main.rs` `include!`s it next to minimal stubs.
//!
//! Rewrites (nothing else is touched; the token stream is otherwise the file's own):
//!  * paths rooted at `std::sync` / `core::sync`      -> `loom::sync`
//!  * paths rooted at `std::thread`                   -> `loom::thread`
//!  * `std::alloc::{alloc,dealloc}` (also through `use std::alloc; alloc::alloc(..)`)
//!                                                     -> `crate::lalloc::{alloc,dealloc}` (loom-tracked
//!                                                        allocations + ledger + quarantine, see main.rs)
//!  * `once_cell::…`                                  -> `crate::once_cell_loom::…` (loom-based OnceCell)
//!  * entry.rs: `EntryStorage.value: UnsafeCell<T>`  -> `crate::tracked::TrackedCell<T>` (std cell + loom
//!    access marker); `&mut *e.value.get()` -> `get_w()`, any other `e.value.get()` -> `get_r()`
//!  * `const fn`                                      -> `fn`   (loom constructors are not const)
//!  * inner attributes (`//!` docs) of the file        -> removed (not allowed in an `include!`)
//!  * `#[cfg(..)]`/`#[cfg_attr(..)]`: `feature = "hot-reloading"`/`"utils"` evaluate to true
//!    (`all()`), every other `feature = ".."` and `docsrs` to false (`any()`); rustc then prunes.
//!
//! The build FAILS if a file no longer contains the paths it is supposed to redirect, or if a
//! path that must not survive (`std::sync`, `core::sync`, `std::thread`, `once_cell::`,
//! un-redirected `alloc::alloc(`/`alloc::dealloc(`) is still present after rewriting: a silently
//! un-instrumented kernel cannot pass as verified.
use proc_macro2::{Group, TokenStream, TokenTree};
use quote::ToTokens;
use std::{collections::BTreeMap, env, fs, path::PathBuf};
use syn::visit_mut::{self, VisitMut};

const ENABLED_FEATURES: &[&str] = &["hot-reloading", "utils"];

#[derive(Default)]
struct Rw {
    /// where `std::sync` goes: `loom::sync`, or (private.rs) `crate::loom_sync` = loom::sync + std's PoisonError
    sync_root: Vec<String>,
    /// redirect category -> number of rewritten paths
    hits: BTreeMap<&'static str, usize>,
    /// `use std::alloc;` (module import) seen: `alloc::alloc(..)` then means `std::alloc::alloc`
    alloc_module_imported: bool,
    consts_stripped: usize,
    cfgs_rewritten: usize,
    /// entry.rs only: `EntryStorage.value: UnsafeCell<T>` -> `crate::tracked::TrackedCell<T>`,
    /// `value: UnsafeCell::new(..)` -> `TrackedCell::new(..)`, `&mut *e.value.get()` -> `get_w()`,
    /// any other `e.value.get()` -> `get_r()`
    track_value_cell: bool,
}

fn v(xs: &[&str]) -> Vec<String> {
    xs.iter().map(|s| s.to_string()).collect()
}

impl Rw {
    /// New root for a path prefix that must be redirected, with its category.
    fn redirect(&self, segs: &[String]) -> Option<(Vec<String>, &'static str)> {
        let s: Vec<&str> = segs.iter().map(|s| s.as_str()).collect();
        match s.as_slice() {
            ["std" | "core", "sync", rest @ ..] => {
                let mut n = if self.sync_root.is_empty() { v(&["loom", "sync"]) } else { self.sync_root.clone() };
                n.extend(rest.iter().map(|x| x.to_string()));
                Some((n, "sync"))
            }
            ["std", "thread", rest @ ..] => {
                let mut n = v(&["loom", "thread"]);
                n.extend(rest.iter().map(|x| x.to_string()));
                Some((n, "thread"))
            }
            ["std" | "alloc", "alloc", f @ ("alloc" | "dealloc")] => Some((v(&["crate", "lalloc", f]), if *f == "alloc" { "alloc" } else { "dealloc" })),
            ["alloc", f @ ("alloc" | "dealloc")] if self.alloc_module_imported => Some((v(&["crate", "lalloc", f]), if *f == "alloc" { "alloc" } else { "dealloc" })),
            ["once_cell", rest @ ..] => {
                let mut n = v(&["crate", "once_cell_loom"]);
                n.extend(rest.iter().map(|x| x.to_string()));
                Some((n, "once_cell"))
            }
            _ => None,
        }
    }
    fn hit(&mut self, cat: &'static str) {
        *self.hits.entry(cat).or_default() += 1;
    }
}

enum Leaf {
    Name(Vec<String>, Option<String>),
    Glob(Vec<String>),
}
fn flatten(prefix: &mut Vec<String>, t: &syn::UseTree, out: &mut Vec<Leaf>) {
    match t {
        syn::UseTree::Path(p) => {
            prefix.push(p.ident.to_string());
            flatten(prefix, &p.tree, out);
            prefix.pop();
        }
        syn::UseTree::Name(n) => {
            let mut v = prefix.clone();
            let id = n.ident.to_string();
            if id != "self" {
                v.push(id);
            }
            out.push(Leaf::Name(v, None));
        }
        syn::UseTree::Rename(r) => {
            let mut v = prefix.clone();
            let id = r.ident.to_string();
            if id != "self" {
                v.push(id);
            }
            out.push(Leaf::Name(v, Some(r.rename.to_string())));
        }
        syn::UseTree::Glob(_) => out.push(Leaf::Glob(prefix.clone())),
        syn::UseTree::Group(g) => {
            for i in &g.items {
                flatten(prefix, i, out);
            }
        }
    }
}

/// Evaluate the feature predicates inside a `cfg`/`cfg_attr` token stream.
fn rewrite_cfg_tokens(ts: TokenStream, n: &mut usize) -> TokenStream {
    let toks: Vec<TokenTree> = ts.into_iter().collect();
    let mut out: Vec<TokenTree> = Vec::new();
    let mut i = 0;
    let lit = |truth: bool| -> TokenStream { if truth { "all()" } else { "any()" }.parse().unwrap() };
    while i < toks.len() {
        match &toks[i] {
            TokenTree::Ident(id) if id == "feature" && i + 2 < toks.len() && matches!(&toks[i + 1], TokenTree::Punct(p) if p.as_char() == '=') => {
                let name = toks[i + 2].to_string();
                let name = name.trim_matches('"');
                out.extend(lit(ENABLED_FEATURES.contains(&name)));
                *n += 1;
                i += 3;
            }
            TokenTree::Ident(id) if id == "docsrs" => {
                out.extend(lit(false));
                *n += 1;
                i += 1;
            }
            TokenTree::Group(g) => {
                let mut ng = Group::new(g.delimiter(), rewrite_cfg_tokens(g.stream(), n));
                ng.set_span(g.span());
                out.push(TokenTree::Group(ng));
                i += 1;
            }
            t => {
                out.push(t.clone());
                i += 1;
            }
        }
    }
    out.into_iter().collect()
}

/// `<e>.value.get()` (no arguments, receiver is a field access named `value`)
fn is_value_get(e: &syn::Expr) -> bool {
    if let syn::Expr::MethodCall(m) = e {
        if m.method == "get" && m.args.is_empty() && m.turbofish.is_none() {
            if let syn::Expr::Field(f) = &*m.receiver {
                return matches!(&f.member, syn::Member::Named(n) if n == "value");
            }
        }
    }
    false
}
fn unparen(e: &mut syn::Expr) -> &mut syn::Expr {
    match e {
        syn::Expr::Paren(p) => unparen(&mut p.expr),
        syn::Expr::Group(g) => unparen(&mut g.expr),
        other => other,
    }
}
fn rename_method(e: &mut syn::Expr, to: &str) {
    if let syn::Expr::MethodCall(m) = e {
        m.method = syn::Ident::new(to, m.method.span());
    }
}

impl VisitMut for Rw {
    fn visit_item_struct_mut(&mut self, st: &mut syn::ItemStruct) {
        if self.track_value_cell && st.ident == "EntryStorage" {
            for f in st.fields.iter_mut() {
                if f.ident.as_ref().map_or(false, |i| i == "value") {
                    if let syn::Type::Path(tp) = &mut f.ty {
                        if tp.path.segments.last().map_or(false, |s| s.ident == "UnsafeCell") {
                            let args = tp.path.segments.last().unwrap().arguments.clone();
                            let mut np: syn::Path = syn::parse_str("crate::tracked::TrackedCell").unwrap();
                            np.segments.last_mut().unwrap().arguments = args;
                            tp.path = np;
                            self.hit("tracked-field");
                        }
                    }
                }
            }
        }
        visit_mut::visit_item_struct_mut(self, st);
    }
    fn visit_field_value_mut(&mut self, fv: &mut syn::FieldValue) {
        if self.track_value_cell && matches!(&fv.member, syn::Member::Named(n) if n == "value") {
            if let syn::Expr::Call(c) = &mut fv.expr {
                if let syn::Expr::Path(p) = &mut *c.func {
                    let segs: Vec<String> = p.path.segments.iter().map(|s| s.ident.to_string()).collect();
                    if segs.len() >= 2 && segs[segs.len() - 2] == "UnsafeCell" && segs[segs.len() - 1] == "new" {
                        p.path = syn::parse_str("crate::tracked::TrackedCell::new").unwrap();
                        self.hit("tracked-new");
                    }
                }
            }
        }
        visit_mut::visit_field_value_mut(self, fv);
    }
    fn visit_expr_mut(&mut self, e: &mut syn::Expr) {
        if self.track_value_cell {
            // `&mut *<e>.value.get()`  ->  write access
            if let syn::Expr::Reference(r) = e {
                if r.mutability.is_some() {
                    if let syn::Expr::Unary(u) = unparen(&mut r.expr) {
                        if matches!(u.op, syn::UnOp::Deref(_)) {
                            let inner = unparen(&mut u.expr);
                            if is_value_get(inner) {
                                rename_method(inner, "get_w");
                                self.hit("tracked-write");
                            }
                        }
                    }
                }
            }
            // every other `<e>.value.get()` (also one that cannot be classified)  ->  read access
            if is_value_get(e) {
                rename_method(e, "get_r");
                self.hit("tracked-read");
            }
        }
        visit_mut::visit_expr_mut(self, e);
    }
    fn visit_signature_mut(&mut self, s: &mut syn::Signature) {
        if s.constness.take().is_some() {
            self.consts_stripped += 1;
        }
        visit_mut::visit_signature_mut(self, s);
    }
    fn visit_attribute_mut(&mut self, a: &mut syn::Attribute) {
        if a.path().is_ident("cfg") || a.path().is_ident("cfg_attr") {
            if let syn::Meta::List(l) = &mut a.meta {
                l.tokens = rewrite_cfg_tokens(std::mem::take(&mut l.tokens), &mut self.cfgs_rewritten);
            }
        }
        visit_mut::visit_attribute_mut(self, a);
    }
    fn visit_path_mut(&mut self, p: &mut syn::Path) {
        let segs: Vec<String> = p.segments.iter().map(|s| s.ident.to_string()).collect();
        for n in (2..=segs.len()).rev() {
            if let Some((new, cat)) = self.redirect(&segs[..n]) {
                let tail: Vec<syn::PathSegment> = p.segments.iter().skip(n).cloned().collect();
                let last_args = p.segments.iter().nth(n - 1).unwrap().arguments.clone();
                let mut np: syn::Path = syn::parse_str(&new.join("::")).unwrap();
                np.segments.last_mut().unwrap().arguments = last_args;
                for t in tail {
                    np.segments.push(t);
                }
                *p = np;
                self.hit(cat);
                break;
            }
        }
        visit_mut::visit_path_mut(self, p);
    }
}

fn rewrite(src: &str, name: &str) -> (String, Rw) {
    let file: syn::File = syn::parse_file(src).unwrap_or_else(|e| panic!("{name}: cannot parse: {e}"));
    rewrite_file(file, Rw { track_value_cell: name == "entry", ..Rw::default() })
}

fn rewrite_file(mut file: syn::File, mut rw: Rw) -> (String, Rw) {
    file.attrs.clear();
    // 1. `use` items: flatten every tree into single-path imports and redirect each leaf
    let mut items = Vec::new();
    for it in file.items.drain(..) {
        if let syn::Item::Use(u) = &it {
            let mut leaves = Vec::new();
            flatten(&mut Vec::new(), &u.tree, &mut leaves);
            let attrs = &u.attrs;
            let vis = &u.vis;
            for l in leaves {
                let (segs, rename, glob) = match l {
                    Leaf::Name(s, r) => (s, r, false),
                    Leaf::Glob(s) => (s, None, true),
                };
                if segs == v(&["std", "alloc"]) && !glob {
                    rw.alloc_module_imported = true;
                }
                let mut rename = rename;
                let newsegs = match rw.redirect(&segs) {
                    Some((n, cat)) => {
                        rw.hit(cat);
                        // `use std::sync;` must keep binding the name `sync`
                        if !glob && rename.is_none() && n.last() != segs.last() {
                            rename = segs.last().cloned();
                        }
                        n
                    }
                    None => segs,
                };
                let mut s = newsegs.join("::");
                if glob {
                    s.push_str("::*");
                }
                if let Some(r) = rename {
                    s.push_str(&format!(" as {r}"));
                }
                let tree: syn::UseTree = syn::parse_str(&s).unwrap();
                let nu: syn::ItemUse = syn::parse_quote!( #(#attrs)* #vis use #tree; );
                items.push(syn::Item::Use(nu));
            }
        } else {
            items.push(it);
        }
    }
    file.items = items;
    // 2. every other path, `const fn`, cfg attributes
    rw.visit_file_mut(&mut file);
    (file.into_token_stream().to_string(), rw)
}

fn repo_root(manifest_dir: &str) -> String {
    println!("cargo:rerun-if-env-changed=KERNMC_REPO");
    if let Ok(p) = env::var("KERNMC_REPO") {
        return p;
    }
    let manifest = format!("{manifest_dir}/Cargo.toml");
    println!("cargo:rerun-if-changed={manifest}");
    let txt = fs::read_to_string(&manifest).expect("read own Cargo.toml");
    for line in txt.lines() {
        let l = line.trim();
        if l.starts_with("assets_manager") && l.contains("path") {
            let after = &l[l.find("path").unwrap()..];
            let q1 = after.find('"').expect("path = \"..\"");
            let q2 = after[q1 + 1..].find('"').expect("closing quote");
            let p = &after[q1 + 1..q1 + 1 + q2];
            let pb = PathBuf::from(p);
            let abs = if pb.is_absolute() { pb } else { PathBuf::from(manifest_dir).join(pb) };
            return abs.to_string_lossy().into_owned();
        }
    }
    panic!("Cargo.toml has no `assets_manager = {{ path = .. }}` dependency to take the kernels from");
}


// -------------------------------------------------------------------------------------------
// Extraction of named items (C08: `Answers` hand-shake + the std-flavoured lock wrappers)
// -------------------------------------------------------------------------------------------
fn die(msg: String) -> ! {
    eprintln!("kernmc build: {msg}");
    std::process::exit(2)
}

fn self_ty_name(i: &syn::ItemImpl) -> Option<String> {
    if i.trait_.is_some() {
        return None;
    }
    match &*i.self_ty {
        syn::Type::Path(p) => p.path.segments.last().map(|s| s.ident.to_string()),
        _ => None,
    }
}

fn collect_idents(ts: TokenStream, out: &mut std::collections::BTreeSet<String>) {
    for t in ts {
        match t {
            TokenTree::Ident(i) => {
                out.insert(i.to_string());
            }
            TokenTree::Group(g) => collect_idents(g.stream(), out),
            _ => {}
        }
    }
}

/// After the cfg predicates were evaluated to `all()` / `any()`: drop what is configured out and
/// the attribute of what is configured in (items and block statements), so that e.g. the
/// parking_lot branch of `wait_while` is not part of the compiled text at all.
struct Prune {
    removed: usize,
}
fn cfg_verdict(attrs: &[syn::Attribute]) -> Option<bool> {
    for a in attrs {
        if a.path().is_ident("cfg") {
            if let syn::Meta::List(l) = &a.meta {
                let t: String = l.tokens.to_string().split_whitespace().collect();
                match t.as_str() {
                    "any()" | "not(all())" => return Some(false),
                    "all()" | "not(any())" => return Some(true),
                    _ => {}
                }
            }
        }
    }
    None
}
fn strip_decided(attrs: &mut Vec<syn::Attribute>) {
    attrs.retain(|a| cfg_verdict(std::slice::from_ref(a)).is_none());
}
fn item_attrs(i: &mut syn::Item) -> Option<&mut Vec<syn::Attribute>> {
    Some(match i {
        syn::Item::Use(x) => &mut x.attrs,
        syn::Item::Fn(x) => &mut x.attrs,
        syn::Item::Struct(x) => &mut x.attrs,
        syn::Item::Impl(x) => &mut x.attrs,
        _ => return None,
    })
}
fn expr_attrs(e: &mut syn::Expr) -> Option<&mut Vec<syn::Attribute>> {
    Some(match e {
        syn::Expr::Block(x) => &mut x.attrs,
        syn::Expr::If(x) => &mut x.attrs,
        syn::Expr::While(x) => &mut x.attrs,
        syn::Expr::Call(x) => &mut x.attrs,
        syn::Expr::MethodCall(x) => &mut x.attrs,
        _ => return None,
    })
}
impl VisitMut for Prune {
    fn visit_file_mut(&mut self, f: &mut syn::File) {
        let before = f.items.len();
        f.items.retain_mut(|i| item_attrs(i).map_or(true, |a| cfg_verdict(a) != Some(false)));
        self.removed += before - f.items.len();
        for i in &mut f.items {
            if let Some(a) = item_attrs(i) {
                strip_decided(a);
            }
        }
        visit_mut::visit_file_mut(self, f);
    }
    fn visit_block_mut(&mut self, b: &mut syn::Block) {
        let before = b.stmts.len();
        b.stmts.retain_mut(|st| match st {
            syn::Stmt::Expr(e, _) => expr_attrs(e).map_or(true, |a| cfg_verdict(a) != Some(false)),
            syn::Stmt::Local(l) => cfg_verdict(&l.attrs) != Some(false),
            _ => true,
        });
        self.removed += before - b.stmts.len();
        for st in &mut b.stmts {
            match st {
                syn::Stmt::Expr(e, _) => {
                    if let Some(a) = expr_attrs(e) {
                        strip_decided(a);
                    }
                }
                syn::Stmt::Local(l) => strip_decided(&mut l.attrs),
                _ => {}
            }
        }
        visit_mut::visit_block_mut(self, b);
    }
}

/// `struct Answers` + `impl Answers` of hot_reloading/mod.rs, with exactly those of the file's own
/// `use` leaves that bind a name the two items mention.
fn extract_answers(path: &str, src: &str) -> (String, Rw) {
    let file: syn::File = syn::parse_file(src).unwrap_or_else(|e| die(format!("{path}: cannot parse: {e}")));
    let mut picked: Vec<syn::Item> = vec![];
    let (mut n_struct, mut n_impl) = (0, 0);
    for it in &file.items {
        match it {
            syn::Item::Struct(s) if s.ident == "Answers" => {
                n_struct += 1;
                picked.push(it.clone());
            }
            syn::Item::Impl(i) if self_ty_name(i).as_deref() == Some("Answers") => {
                n_impl += 1;
                picked.push(it.clone());
            }
            _ => {}
        }
    }
    if n_struct != 1 || n_impl != 1 {
        die(format!("{path}: expected one `struct Answers` and one `impl Answers`, found {n_struct} / {n_impl}"));
    }
    let mut methods = vec![];
    for it in &picked {
        if let syn::Item::Impl(i) = it {
            for m in &i.items {
                if let syn::ImplItem::Fn(f) = m {
                    methods.push(f.sig.ident.to_string());
                }
            }
        }
    }
    for want in ["get_unique_token", "notify", "wait_for_answer"] {
        if !methods.iter().any(|m| m == want) {
            die(format!("{path}: `impl Answers` has no `fn {want}` (found {methods:?})"));
        }
    }
    let mut idents = std::collections::BTreeSet::new();
    for it in &picked {
        collect_idents(it.to_token_stream(), &mut idents);
    }
    // the file's own imports of the names used
    let mut uses: Vec<syn::Item> = vec![];
    let mut origin: BTreeMap<String, Vec<String>> = BTreeMap::new();
    for it in &file.items {
        if let syn::Item::Use(u) = it {
            if u.attrs.iter().any(|a| a.path().is_ident("cfg")) {
                continue; // `#[cfg(doc)] use …`
            }
            let mut leaves = vec![];
            flatten(&mut vec![], &u.tree, &mut leaves);
            for l in leaves {
                if let Leaf::Name(segs, rename) = l {
                    let bind = rename.clone().or(segs.last().cloned()).unwrap_or_default();
                    if idents.contains(&bind) {
                        let mut s = segs.join("::");
                        if let Some(r) = &rename {
                            s.push_str(&format!(" as {r}"));
                        }
                        let tree: syn::UseTree = syn::parse_str(&s).unwrap();
                        uses.push(syn::Item::Use(syn::parse_quote!( use #tree; )));
                        origin.insert(bind, segs);
                    }
                }
            }
        }
    }
    for (name, from) in [("AtomicUsize", "std::sync::atomic::AtomicUsize"), ("Ordering", "std::sync::atomic::Ordering"), ("Mutex", "crate::utils::Mutex"), ("Condvar", "crate::utils::Condvar")] {
        let got = origin.get(name).map(|s| s.join("::"));
        if got.as_deref() != Some(from) {
            die(format!("{path}: `Answers` is expected to use `{from}`; the file imports `{name}` from {got:?}: the hand-shake would not run on the instrumented std-lock wrappers"));
        }
    }
    uses.extend(picked);
    let f = syn::File { shebang: None, attrs: vec![], items: uses };
    rewrite_file(f, Rw::default())
}

/// `sync` alias, `wrap`, `Mutex`, `Condvar` (+ impls) of utils/private.rs, parking_lot OFF.
fn extract_std_locks(path: &str, src: &str) -> (String, Rw, usize) {
    let file: syn::File = syn::parse_file(src).unwrap_or_else(|e| die(format!("{path}: cannot parse: {e}")));
    let mut picked: Vec<syn::Item> = vec![];
    let mut count: BTreeMap<&'static str, usize> = BTreeMap::new();
    for it in &file.items {
        let key = match it {
            syn::Item::Use(u) => {
                let mut leaves = vec![];
                flatten(&mut vec![], &u.tree, &mut leaves);
                let binds_sync = leaves.iter().any(|l| matches!(l, Leaf::Name(segs, rename) if rename.as_deref().or(segs.last().map(|s| s.as_str())) == Some("sync")));
                if binds_sync && leaves.len() == 1 { Some("use sync") } else { None }
            }
            syn::Item::Fn(f) if f.sig.ident == "wrap" => Some("fn wrap"),
            syn::Item::Struct(s) if s.ident == "Mutex" => Some("struct Mutex"),
            syn::Item::Struct(s) if s.ident == "Condvar" => Some("struct Condvar"),
            syn::Item::Impl(i) if self_ty_name(i).as_deref() == Some("Mutex") => Some("impl Mutex"),
            syn::Item::Impl(i) if self_ty_name(i).as_deref() == Some("Condvar") => Some("impl Condvar"),
            _ => None,
        };
        if let Some(k) = key {
            *count.entry(k).or_default() += 1;
            picked.push(it.clone());
        }
    }
    for (k, min) in [("use sync", 2), ("fn wrap", 2), ("struct Mutex", 1), ("impl Mutex", 1), ("struct Condvar", 1), ("impl Condvar", 1)] {
        if count.get(k).copied().unwrap_or(0) < min {
            die(format!("{path}: expected >= {min} item(s) `{k}`, found {}", count.get(k).copied().unwrap_or(0)));
        }
    }
    let mut methods = vec![];
    let mut wait_while_txt = String::new();
    for it in &picked {
        if let syn::Item::Impl(i) = it {
            for m in &i.items {
                if let syn::ImplItem::Fn(f) = m {
                    methods.push(format!("{}::{}", self_ty_name(i).unwrap_or_default(), f.sig.ident));
                    if f.sig.ident == "wait_while" {
                        wait_while_txt = f.to_token_stream().to_string().split_whitespace().collect();
                    }
                }
            }
        }
    }
    for want in ["Mutex::lock", "Condvar::notify_all", "Condvar::wait_while"] {
        if !methods.iter().any(|m| m == want) {
            die(format!("{path}: no `{want}` (found {methods:?})"));
        }
    }
    if !(wait_while_txt.contains("#[cfg(feature=\"parking_lot\")]") && wait_while_txt.contains("#[cfg(not(feature=\"parking_lot\"))]")) {
        die(format!("{path}: `Condvar::wait_while` no longer has a parking_lot and a std branch: cannot select the std one"));
    }
    let f = syn::File { shebang: None, attrs: vec![], items: picked };
    // 1. redirect + evaluate cfgs (parking_lot is not an enabled feature -> false)
    let rw = Rw { sync_root: v(&["crate", "loom_sync"]), ..Rw::default() };
    let (txt, rw) = rewrite_file(f, rw);
    // 2. prune what is configured out
    let mut f2: syn::File = syn::parse_file(&txt).unwrap_or_else(|e| die(format!("{path}: rewritten text does not parse: {e}")));
    let mut pr = Prune { removed: 0 };
    pr.visit_file_mut(&mut f2);
    (f2.into_token_stream().to_string(), rw, pr.removed)
}

/// Nothing that must be intercepted may survive the rewrite.
fn check_survivors(path: &str, txt: &str) {
    let flat: String = txt.split_whitespace().collect::<Vec<_>>().join("");
    for bad in ["std::sync", "core::sync", "std::thread", "core::thread", "once_cell::", "parking_lot", "std::alloc::alloc(", "std::alloc::dealloc(", "std::alloc::realloc", "std::alloc::alloc_zeroed", "alloc::realloc(", "alloc::alloc_zeroed("] {
        if flat.contains(bad) {
            die(format!("{path}: `{bad}` survives the rewrite (un-instrumented operation)"));
        }
    }
}

fn main() {
    let out = PathBuf::from(env::var("OUT_DIR").unwrap());
    let root = repo_root(&env::var("CARGO_MANIFEST_DIR").unwrap());
    println!("cargo:rerun-if-changed=build.rs");
    // (name, relative path, required redirect categories with their minimal counts)
    let files: &[(&str, &str, &[(&str, usize)])] = &[
        ("bytes", "src/utils/bytes.rs", &[("sync", 1), ("alloc", 2), ("dealloc", 1)]),
        ("string", "src/utils/string.rs", &[]),
        ("cell", "src/utils/cell.rs", &[("once_cell", 1)]),
        ("entry", "src/entry.rs", &[("sync", 1), ("tracked-field", 1), ("tracked-new", 1), ("tracked-read", 2), ("tracked-write", 1)]),
    ];
    let mut summary = String::new();
    for (name, rel, required) in files {
        let path = format!("{root}/{rel}");
        println!("cargo:rerun-if-changed={path}");
        let src = fs::read_to_string(&path).unwrap_or_else(|e| panic!("kernmc build: cannot read kernel {path}: {e}"));
        let (txt, rw) = rewrite(&src, name);
        for (cat, min) in *required {
            let got = rw.hits.get(cat).copied().unwrap_or(0);
            if got < *min {
                eprintln!("kernmc build: {path}: expected >= {min} `{cat}` path(s) to redirect to loom, found {got}: the kernel would run un-instrumented (tracked-*: accesses to EntryStorage.value)");
                std::process::exit(2);
            }
        }
        // nothing that must be intercepted may survive
        let flat: String = txt.split_whitespace().collect::<Vec<_>>().join("");
        for bad in ["std::sync", "core::sync", "std::thread", "core::thread", "once_cell::", "parking_lot", "std::alloc::alloc(", "std::alloc::dealloc(", "std::alloc::realloc", "std::alloc::alloc_zeroed", "alloc::realloc(", "alloc::alloc_zeroed("] {
            if flat.contains(bad) {
                eprintln!("kernmc build: {path}: `{bad}` survives the rewrite (un-instrumented operation)");
                std::process::exit(2);
            }
        }
        for bad in ["alloc::alloc(", "alloc::dealloc("] {
            let n_all = flat.matches(bad).count();
            let n_ok = flat.matches(&format!("lalloc::{}", &bad[7..])).count();
            if n_all != n_ok {
                eprintln!("kernmc build: {path}: {} call(s) of `{bad}` not redirected", n_all - n_ok);
                std::process::exit(2);
            }
        }
        if *name == "string" && !flat.contains("SharedBytes") {
            eprintln!("kernmc build: {path}: SharedString is no longer built on SharedBytes: its allocations would be un-instrumented");
            std::process::exit(2);
        }
        if *name == "entry" && !src.contains("feature = \"hot-reloading\"") {
            eprintln!("kernmc build: {path}: no `hot-reloading` cfg found; harness assumptions broken");
            std::process::exit(2);
        }
        summary.push_str(&format!("{name}: redirects {:?}, const fn stripped {}, cfg predicates evaluated {}\n", rw.hits, rw.consts_stripped, rw.cfgs_rewritten));
        fs::write(out.join(format!("{name}.rs")), txt).unwrap();
    }
    // ---- C08: Answers hand-shake on the std-flavoured lock wrappers
    {
        let path = format!("{root}/src/hot_reloading/mod.rs");
        println!("cargo:rerun-if-changed={path}");
        let src = fs::read_to_string(&path).unwrap_or_else(|e| die(format!("cannot read kernel {path}: {e}")));
        let (txt, rw) = extract_answers(&path, &src);
        if rw.hits.get("sync").copied().unwrap_or(0) < 2 {
            die(format!("{path}: expected >= 2 `std::sync` paths (AtomicUsize, Ordering) to redirect in the Answers extract, found {:?}", rw.hits));
        }
        check_survivors(&path, &txt);
        summary.push_str(&format!("answers (struct Answers + impl Answers of hot_reloading/mod.rs): redirects {:?}, cfg predicates evaluated {}\n", rw.hits, rw.cfgs_rewritten));
        fs::write(out.join("answers.rs"), txt).unwrap();

        let path = format!("{root}/src/utils/private.rs");
        println!("cargo:rerun-if-changed={path}");
        let src = fs::read_to_string(&path).unwrap_or_else(|e| die(format!("cannot read kernel {path}: {e}")));
        let (txt, rw, pruned) = extract_std_locks(&path, &src);
        if rw.hits.get("sync").copied().unwrap_or(0) < 1 {
            die(format!("{path}: expected the `use std::sync;` alias to redirect, found {:?}", rw.hits));
        }
        if pruned < 3 {
            die(format!("{path}: expected >= 3 parking_lot-only items/branches to configure out, pruned {pruned}"));
        }
        check_survivors(&path, &txt);
        let flat: String = txt.split_whitespace().collect();
        if !flat.contains("usecrate::loom_syncassync;") || !flat.contains("sync::Mutex<") || !flat.contains("sync::Condvar") {
            die(format!("{path}: the std-lock wrappers no longer go through the `sync` alias"));
        }
        summary.push_str(&format!("std_locks (sync alias, wrap, Mutex, Condvar of utils/private.rs; parking_lot OFF): redirects {:?}, cfg predicates evaluated {}, configured-out items/branches pruned {}\n", rw.hits, rw.cfgs_rewritten, pruned));
        fs::write(out.join("std_locks.rs"), txt).unwrap();
    }
    fs::write(out.join("instrumentation.txt"), &summary).unwrap();
    println!("cargo:rustc-env=KERNMC_REPO_ROOT={root}");
    println!("cargo:rustc-env=KERNMC_INSTRUMENTATION={}", summary.replace('\n', " | "));
}
